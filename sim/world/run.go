package world

import (
	"fmt"
	"os"
	"runtime"
	"sort"
	"strings"
	"testing"
	"testing/synctest"
	"time"

	"verif/sim/core"
)

// Violation is one property violation found in a run. Class is a
// fine-grained, stable string used for minimisation ("same violation") and
// for matching known findings.
type Violation struct {
	Class string `json:"class"`
	Msg   string `json:"msg"`
}

// RunResult is the outcome of one simulated run.
type RunResult struct {
	Prop         string         `json:"prop"`
	Seed         uint64         `json:"seed"`
	Status       string         `json:"status"`
	Inconclusive string         `json:"inconclusive,omitempty"`
	Steps        int            `json:"steps"`
	Branching    int            `json:"branching"`
	Hash         string         `json:"hash"`
	FakeNS       int64          `json:"fake_ns"`
	Violations   []Violation    `json:"violations,omitempty"`
	Probes       map[string]int `json:"probes,omitempty"`
	Sample       any            `json:"sample,omitempty"`
	Tape         []int          `json:"tape,omitempty"`
	Trace        []string       `json:"trace,omitempty"`
	Nontrivial   bool           `json:"nontrivial"`
	Sig          string         `json:"sig"`
}

// Prop is one property's world: a scenario generator and an oracle.
type Prop struct {
	ID    string
	Gen   func(t *core.Tape, tier string) *Scenario
	Check func(w *World, st core.Status, r *RunResult) []Violation
	// Direct, if set, replaces the scenario machinery entirely (worlds that
	// are not a client/handler exchange).
	Direct func(t *testing.T, tape *core.Tape, tier string, r *RunResult)
	// HangIsViolation: the property states termination.
	HangIsViolation bool
	MaxSteps        int
}

var Props = map[string]*Prop{}

var debugHook func(w *World)

func register(p *Prop) { Props[p.ID] = p }

type RunOpts struct {
	Tier      string
	KeepTrace bool
	KeepTape  bool
	Real      bool // calibration world (real net/http, free-running)
}

// RunOne executes one simulated run of a property inside a fresh bubble.
func RunOne(t *testing.T, prop *Prop, tape *core.Tape, opts RunOpts) (res *RunResult) {
	res = &RunResult{Prop: prop.ID, Probes: map[string]int{}}
	defer func() {
		if r := recover(); r != nil {
			msg := fmt.Sprint(r)
			if strings.Contains(msg, "deadlock") && strings.Contains(msg, "bubble") {
				// goroutines still blocked when the bubble's root returned
				res.Probes["leak_at_bubble_end"]++
				if prop.HangIsViolation && res.Inconclusive == "" {
					// (not after a run the scheduler gave up on - step budget, overflow:
					// its tasks were killed where they stood, and what they were
					// blocking stays blocked by construction)
					res.Violations = append(res.Violations, Violation{
						Class: prop.ID + "/goroutine-leak/bubble-end",
						Msg:   "goroutines remained blocked after the run: " + firstLines(msg, 80),
					})
				} else if res.Inconclusive == "" && len(res.Violations) == 0 {
					res.Inconclusive = "leftover goroutines at bubble end: " + firstLines(msg, 60)
				}
				return
			}
			res.Inconclusive = "harness panic: " + firstLines(msg, 8)
		}
	}()
	synctest.Test(t, func(t *testing.T) {
		if prop.Direct != nil {
			prop.Direct(t, tape, opts.Tier, res)
			return
		}
		s := core.NewSched(tape)
		s.KeepTrace = opts.KeepTrace
		if prop.MaxSteps > 0 {
			s.MaxSteps = prop.MaxSteps
		}
		sc := prop.Gen(tape, opts.Tier)
		if opts.Real {
			s.Free = true
		}
		w := newWorld(s, sc, opts.Real)
		w.Start()
		var st core.Status
		if opts.Real {
			st = s.RunFree(300 * time.Second)
			w.real.close()
			close(w.shutdown)
			time.Sleep(60 * time.Second) // fake: lets sleeping handlers of abandoned calls finish
			synctest.Wait()
			if os.Getenv("VERIF_DEBUG_STACKS") != "" {
				buf := make([]byte, 1<<20)
				fmt.Fprintf(os.Stderr, "%s\n", buf[:runtime.Stack(buf, true)])
			}
		} else {
			st = s.Run()
		}
		res.Status = st.String()
		res.Steps, res.Branching = s.Steps, s.Branching
		res.Hash = fmt.Sprintf("%016x", s.Hash)
		res.Sig = res.Hash
		res.FakeNS = int64(s.Elapsed())
		res.Nontrivial = s.Branching > 0
		for k, v := range sc.Notes {
			res.Probes[k] += v
		}
		var vs []Violation
		switch st {
		case core.StepCap, core.Overflow:
			res.Inconclusive = "scheduler " + st.String()
		case core.Hang:
			if prop.HangIsViolation {
				vs = append(vs, Violation{Class: prop.ID + "/hang/" + w.hangClass(), Msg: w.hangReport()})
			} else {
				res.Inconclusive = "hang (property does not state termination): " + w.hangReport()
			}
		}
		// panics on simulator-owned tasks
		for _, tk := range s.Tasks {
			if pv, stack := tk.GetPanic(); pv != nil {
				vs = append(vs, Violation{
					Class: prop.ID + "/panic/" + tk.Name[strings.LastIndex(tk.Name, "/")+1:],
					Msg:   fmt.Sprintf("task %s panicked: %v\n%s", tk.Name, pv, firstLines(stack, 30)),
				})
			}
		}
		if st == core.Done || st == core.Hang {
			vs = append(vs, prop.Check(w, st, res)...)
		}
		w.probes(res)
		if debugHook != nil {
			debugHook(w)
		}
		res.Violations = append(res.Violations, vs...)
		if opts.KeepTrace {
			res.Trace = s.Trace
			res.Sample = w.describe()
		}
		s.Kill()
		setPools(nil)
		if st == core.Done {
			// tables of a cleanly finished run are dead and can be reused
			s.Release()
			w.pools.recycle()
		}
	})
	if opts.KeepTape {
		res.Tape = tape.Values()
	}
	return res
}

func firstLines(s string, n int) string {
	lines := strings.Split(s, "\n")
	if len(lines) > n {
		lines = append(lines[:n], "...")
	}
	return strings.Join(lines, "\n")
}

func (w *World) hangClass() string {
	var wh []string
	for _, t := range w.S.Tasks {
		if !t.Finished() && t.Where() != "" {
			parts := strings.SplitN(t.Where(), " ", 2)
			if len(parts) == 2 {
				wh = append(wh, parts[1])
			}
		}
	}
	sort.Strings(wh)
	if len(wh) == 0 {
		return "unknown"
	}
	return strings.Join(wh, "+")
}

func (w *World) hangReport() string {
	var b strings.Builder
	fmt.Fprintf(&b, "no operation can make progress; fake time %v; unfinished:", w.S.Elapsed())
	for _, t := range w.S.Tasks {
		if !t.Finished() {
			fmt.Fprintf(&b, " [%s in %q]", t.Name, t.Where())
		}
	}
	fmt.Fprintf(&b, "; parked: %v", w.S.Parked())
	return b.String()
}

// libraryGoroutines returns the stacks of goroutines that still have a
// connect-go frame (call after the run is quiescent and all tasks finished).
func libraryGoroutines() []string {
	buf := make([]byte, 1<<20)
	buf = buf[:runtime.Stack(buf, true)]
	var out []string
	for _, g := range strings.Split(string(buf), "\n\n") {
		if strings.Contains(g, "github.com/bufbuild/connect-go.") && !strings.Contains(g, "verif/sim/world.RunOne") {
			out = append(out, g)
		}
	}
	return out
}

func (w *World) probes(r *RunResult) {
	for _, o := range w.Obs {
		ex := o.Call.Exchange()
		if ex != nil {
			if ex.Down.SplitReads > 0 {
				r.Probes["down_split_reads"] += ex.Down.SplitReads
			}
			if ex.Up.SplitReads > 0 {
				r.Probes["up_split_reads"] += ex.Up.SplitReads
			}
			r.Probes["eof_with_data"] += ex.Down.EOFWithData + ex.Up.EOFWithData
			if ex.PumpErrLive {
				r.Probes["request_body_failed_response_open"]++
			}
			if ex.CtxNoticedLate {
				r.Probes["context_end_noticed_late_by_transport"]++
			}
			if ex.ConnClosedOnUpload {
				r.Probes["h1_connection_closed_on_continued_upload"]++
			}
			if o.Plan.K.H1Close && !o.Plan.K.HTTP2 && ex.PostSeen() > 0 {
				// the server was ready to close the connection; it does only on bytes
				// written by a client that already had the answer
				r.Probes["h1_upload_continued_after_handler_done"]++
			}
			if ex.LateWindows > 0 {
				r.Probes["h1_cancellation_reached_server_first"]++
			}
			if ex.UnchunkedNoTrailers {
				r.Probes["h1_unchunked_response_lost_trailers"]++
			}
			if ex.UploadStopped() {
				r.Probes["h2_upload_stopped_by_status"]++
			}
			if o.Plan.K.NoFlusher {
				r.Probes["response_writer_without_flush"]++
			}
			if o.Plan.K.HandBuiltResp {
				r.Probes["hand_built_response_without_length"]++
			}
			if ex.HeldToEnd {
				r.Probes["answer_held_until_handler_returned"]++
			}
			if ex.ComputedLength >= 0 {
				r.Probes["answer_given_content_length_by_server"]++
			}
			if ex.PumpErrLate {
				r.Probes["request_body_failed_response_ended"]++
			}
			if o.Plan.K.PumpLag > 0 {
				r.Probes["transport_lag_request_body"]++
			}
			if o.Plan.K.FinishLag > 0 {
				r.Probes["transport_lag_end_of_response"]++
			}
		}
		hits := o.Call.Hits()
		for i, n := range hits {
			if n > 0 && o.Plan.YieldOn[i] {
				r.Probes["yield_parked"] += n
			}
		}
	}
	for _, o := range w.Obs {
		if o.H.NeverCancelled {
			r.Probes["real_http1_handler_context_never_cancelled"]++
		}
	}
	r.Probes["buf_reuse"] += w.pools.stats.BufReuse
	r.Probes["buf_gets"] += w.pools.stats.BufGets
	r.Probes["comp_reuse"] += w.pools.stats.CompReuse
	r.Probes["pool_entries_vanished"] += w.pools.stats.Vanished
}

// describe renders the scenario and observations for samples and replay
// files.
func (w *World) describe() any {
	type callDesc struct {
		ID      string   `json:"id"`
		Kind    string   `json:"kind"`
		Proto   string   `json:"proto"`
		Codec   string   `json:"codec"`
		Send    string   `json:"send_compression"`
		HTTP2   bool     `json:"http2"`
		Req     []int    `json:"req_sizes"`
		Resp    []int    `json:"resp_sizes"`
		HProg   []string `json:"handler_prog"`
		CProg   []string `json:"client_prog"`
		Knobs   string   `json:"knobs"`
		Outcome string   `json:"outcome"`
	}
	var out []callDesc
	for _, o := range w.Obs {
		p := o.Plan
		d := callDesc{ID: p.ID, Kind: p.Kind.String(), HTTP2: p.K.HTTP2}
		if p.Raw == nil {
			c := w.Sc.Clients[p.Client]
			d.Proto = c.Proto.String()
			d.Codec = "proto"
			if c.JSON {
				d.Codec = "json"
			}
			d.Send = c.SendComp
		}
		for _, m := range p.ReqMsgs {
			d.Req = append(d.Req, len(m))
		}
		for _, m := range p.RespMsgs {
			d.Resp = append(d.Resp, len(m))
		}
		for _, op := range p.HProg {
			d.HProg = append(d.HProg, fmt.Sprintf("%s:%d", op.Op, op.Arg))
		}
		for _, op := range p.CProg {
			d.CProg = append(d.CProg, fmt.Sprintf("%s:%d", op.Op, op.Arg))
		}
		d.Knobs = fmt.Sprintf("upwin=%d downwin=%d upfrag=%d downfrag=%d autoflush=%v lazy=%v postaccept=%d downcut=%d upcut=%d failwrite=%d deadline=%v canceltask=%v split=%v noflusher=%v",
			p.K.UpWindow, p.K.DownWindow, p.K.UpFrag, p.K.DownFrag, p.K.AutoFlush, p.K.Lazy, p.K.PostAccept, p.K.DownCutAt, p.K.UpCutAt, p.K.FailWriteAt, p.Deadline, p.CancelTask, p.Split, p.K.NoFlusher)
		d.Outcome = fmt.Sprintf("final=%v recv=%d hrecv=%d", o.Final, len(o.Recv), len(o.H.Recv))
		out = append(out, d)
	}
	return out
}

var _ = time.Now

// transportLimit reports calls whose outcome was decided by a limit of the
// (modelled) HTTP transport rather than by the library: HTTP/1.1 cannot carry
// a trailer block beyond 4 KiB. Oracles skip such calls and count them.
func transportLimit(o *CallObs, r *RunResult) bool {
	if ex := o.Call.Exchange(); ex != nil && ex.TrailerOverflow {
		r.Probes["skipped_http1_trailer_overflow"]++
		return true
	}
	if o.Call.Exchange() == nil && o.Final != nil && strings.Contains(o.Final.Error(), "suspiciously long trailer") {
		// calibration world: the real HTTP/1.1 client hit the same limit
		r.Probes["skipped_http1_trailer_overflow"]++
		return true
	}
	return false
}

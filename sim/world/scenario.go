package world

import (
	"net/http"
	"time"

	"verif/sim/simhttp"
)

type Proto int

const (
	PConnect Proto = iota
	PGRPC
	PGRPCWeb
)

func (p Proto) String() string { return [...]string{"connect", "grpc", "grpcweb"}[p] }

type Kind int

const (
	KUnary Kind = iota
	KClient
	KServer
	KBidi
)

func (k Kind) String() string { return [...]string{"unary", "client", "server", "bidi"}[k] }

// HandlerCfg is the configuration of one shared Handler set (one Handler per
// RPC kind is built from it).
type HandlerCfg struct {
	StrictCodec bool     // the handler's codecs marshal the service's own message type only (the Codec contract allows that): a gRPC Status cannot be marshalled
	Scratch     bool     // as ClientCfg.Scratch, on the handler side
	Comp        []string // custom algorithms in registration order (gzip is always registered first by the library)
	NilComp     []string // names passed to WithCompression with nil constructors: documented as a no-op
	CompressMin int
	ReadMax     int
	Recover     bool // install WithRecover
	FailCodec   bool // install codecs that fail to marshal marked messages
	RecoverPos  int  // position among NInterceptors others
	NIntercept  int
}

// ClientCfg is the configuration of one Client.
type ClientCfg struct {
	Proto        Proto
	JSON         bool
	SendComp     string        // "" none
	NilAccept    []string      // names passed to WithAcceptCompression with nil constructors: a no-op
	FailCodec    bool          // install a codec that fails to marshal marked messages
	SlowMarshal  time.Duration // the client's codec takes this much fake time to marshal a message (C10: what goes on the wire afterwards must fit the time remaining afterwards)
	OwnTypeCodec bool          // the client's "proto" codec decodes the service's own message type only, and says so with an error that wraps io.EOF (a stream decoder that ran dry): a gRPC Status cannot be decoded
	OddURL       bool          // the client's URL passes the library's own check (url.ParseRequestURI) but not http.NewRequest's (url.Parse): a fragment with a stray percent sign
	Broken       bool          // misconfigured (sends with a compression nobody registered): NewClient records an error that every call returns
	Accept       []string      // custom algorithms in registration order (gzip is registered first by the library)
	CompressMin  int
	ReadMax      int
	Scratch      bool // an interceptor receives every streamed message into one scratch value of its own (conn-level Receive into a reused message) and copies it to the caller's
	Hedge        bool // a client interceptor opens a second (unused) connection per streaming call, as hedging interceptors do
	DeadlineIcpt bool // a client interceptor derives the context the call runs under (default-timeout interceptor)
}

// ErrPlan is an error a handler returns.
type ErrPlan struct {
	Plain     bool // errors.New(Msg) instead of a *connect.Error
	Code      uint32
	Msg       string
	NilErr    bool // NewError(code, nil)
	Details   []DetailPlan
	Meta      http.Header
	RawMeta   http.Header // metadata stored under map keys the application wrote by hand (err.Meta()["x-request-id"] = ...), not through Add/Set
	ProxyMeta http.Header // status keys of an upstream error passed through in the error's metadata (a proxying handler)
	CtxErr    bool        // wait for the handler's context to finish, return ctx.Err()
	CtxKind   int         // 1 context.Canceled, 2 context.DeadlineExceeded, 3/4 the same wrapped with %w
	WrapEOF   bool        // the error's cause wraps io.EOF (a backend that hung up: Post "...": EOF); Msg ends in ": EOF"
	WrapCtx   int         // coded error whose cause wraps a context error of a sub-operation: 1 context.Canceled, 2 context.DeadlineExceeded
	Shared    bool        // a sentinel: every call that shares this plan returns the very same error value
	Wrapped   bool        // the coded error is returned wrapped: fmt.Errorf("...: %w", connectErr)
	built     error
}

type DetailPlan struct {
	Kind int // 0 StringValue 1 BytesValue 2 Duration 3 Struct 4 an Any whose type is not linked into the binary
	Data []byte
}

// HOp is one step of a handler program.
type HOp struct {
	Op  string // recv, drain, send, sethdr, settrl, panic, waitctx, sleep
	Arg int
}

// COp is one step of a client program (streaming kinds).
type COp struct {
	Op  string // send, closereq, recv, recvall, closeresp, cancel
	Arg int
}

// CallPlan is everything decided about one call before the run starts.
type CallPlan struct {
	ID      string
	Kind    Kind
	Client  int // index into Scenario.Clients
	Handler int // index into Scenario.Handlers
	K       simhttp.Knobs

	ReqMsgs  [][]byte
	RespMsgs [][]byte

	ReqHeader   http.Header
	RespHeader  http.Header
	RespTrailer http.Header
	LateHeader  http.Header // set after the first Send (documented no-op)

	HProg               []HOp
	HErr                *ErrPlan // returned at the end of HProg (nil: success)
	HPanic              *PanicPlan
	KeepReceiving       bool   // bidi handler: keep calling Receive after a non-EOF error
	ReuseRequestOf      string // unary: send the very connect.Request object of that earlier call again
	InterceptDeadline   bool   // Deadline is set by a client interceptor; the caller's own context has CallerDeadline (0: none)
	CallerDeadline      time.Duration
	RecvPastEnd         bool          // server stream: the caller calls Receive once more after the stream has reported its end
	MirrorBy            string        // unary: the handler interceptor with this tag hands the request object to a shadow client before it calls next
	PreSendSleep        time.Duration // the caller creates the stream, then waits this long before its first Send / CloseRequest
	InterceptorErr      bool          // the plan's error is returned by the outermost handler interceptor, user code never runs
	InterceptorErrAfter bool          // client-stream: the outermost handler interceptor returns the plan\'s error after the handler has sent its response
	CloseTwice          bool          // server-stream client calls Close twice
	clientLimit         bool          // C14: the call ends on the client's own read limit
	Abandon             bool          // client-stream: once the program has cancelled the context it calls nothing more (no CloseAndReceive)
	protoRefused        bool          // C14: the handler lacks the compression the client sends with
	doFails             bool          // C14: HTTPClient.Do fails (nothing answers at that address)
	LiveCtx             bool          // the call's context can be cancelled but never is while the run lasts (a server's request context)
	unsendable          int           // C01: 1 + index of the request message the client's codec cannot marshal (0: none)
	panicAfterCtx       bool
	ReturnSendErr       bool     // the handler returns the error of a failed Send (as handlers do)
	RecoverErr          *ErrPlan // what the WithRecover function returns

	CProg    []COp // sender (or only) task
	CProgRcv []COp // receiver task when Split
	Split    bool

	Deadline     time.Duration // 0: none
	CancelTask   bool          // a canceller task cancels at a scheduler-chosen step
	CancelBefore bool          // the context is cancelled before the first operation
	CancelLate   bool          // stub world: the canceller becomes eligible only after CancelDelay of fake time
	CancelDelay  time.Duration // calibration world only: the canceller waits this long (fake time) first
	YieldOn      [simhttp.NumPoints]bool
	SlowOn       [simhttp.NumPoints]bool

	c07           *c07Info
	c09           *c09Info
	c05mode       int
	marshalFails  bool
	marshalFailAt int
	bad           string              // C08: what is wrong with this call ("" = a valid call)
	badOriginal   []byte              // C08: the value the corrupt payload was made from
	byz           *byzInfo            // C06: what the byzantine peer did
	bin           map[string][][]byte // original bytes of generated -Bin values

	TimeoutString string // C10: header string under test and its class
	TimeoutClass  string

	Canned *simhttp.Canned // if set: HTTPClient.Do answers with this response instead of running a handler

	Raw *RawReq // if set: no connect client; a crafted HTTP request is served directly

	Task int // client task group (calls with the same Task run sequentially in one task)
}

type PanicPlan struct {
	Kind int // 0 nil 1 error 2 string 3 struct 4 ErrAbortHandler 5 error wrapping it 6 slice 7 map 8 struct with a slice 9 pointer
	Text string
}

// Scenario is a whole run.
type Scenario struct {
	Prop          string
	Handlers      []HandlerCfg
	Clients       []ClientCfg
	Calls         []*CallPlan
	PoolFIFO      bool
	TouchErrors   bool           // client code annotates the metadata of the errors it is handed
	PoolDrop      uint32         // non-zero: pooled objects vanish now and then, as at a GC (seed)
	AlgoYield     bool           // custom (de)compressors park at a scheduler gate in their first Read
	CompFault     *compFault     // C08: one custom (de)compressor operation fails
	CompFaultSide int            // 0 handler-side instances, 1 client-side instances
	Notes         map[string]int // generator-side probe counters
}

// RawReq is a crafted HTTP request delivered straight to Handler.ServeHTTP.
type RawReq struct {
	Method string
	Header http.Header
	Body   []byte
	EndErr error // how the body ends (nil: clean EOF)
}

package world

import (
	"encoding/json"
	"fmt"
	"hash/fnv"
	"os"
	"runtime"
	"strconv"
	"testing"
	"time"

	"verif/sim/core"
)

// TestWorker is the entry point of a worker process. Everything is driven by
// environment variables set by /verif/check:
//
//	VERIF_PROP   property id
//	VERIF_SEED   base seed
//	VERIF_FROM / VERIF_COUNT   run indices [from, from+count)
//	VERIF_STRIDE  index stride (workers interleave)
//	VERIF_BUDGET_S wall-clock budget for this worker
//	VERIF_OUT    output file (JSON)
//	VERIF_REPLAY replay file: run that tape once and report
//	VERIF_TRACE  keep traces
type workerOut struct {
	Prop         string            `json:"prop"`
	Runs         int               `json:"runs"`
	Nontrivial   int               `json:"nontrivial"`
	Sigs         []string          `json:"sigs"`
	Steps        int64             `json:"steps"`
	FakeNS       int64             `json:"fake_ns"`
	Probes       map[string]int    `json:"probes"`
	Status       map[string]int    `json:"status"`
	Inconclusive []string          `json:"inconclusive"`
	Violations   []*ViolationRec   `json:"violations"`
	Samples      []*RunResult      `json:"samples"`
	WallS        float64           `json:"wall_s"`
	Hashes       map[string]string `json:"hashes,omitempty"`
}

type ViolationRec struct {
	Prop     string   `json:"prop"`
	Seed     uint64   `json:"seed"`
	Index    int      `json:"index"`
	Class    string   `json:"class"`
	Msg      string   `json:"msg"`
	Tape     []int    `json:"tape"`
	OrigLen  int      `json:"orig_tape_len"`
	Hash     string   `json:"hash"`
	Tier     string   `json:"tier"`
	Trace    []string `json:"trace,omitempty"`
	Scenario any      `json:"scenario,omitempty"`
	Shrinks  int      `json:"shrink_runs"`
	// History, when set, replays a whole prefix of a worker's run sequence in
	// one process before the failing run: for violations that depend on state
	// the library keeps across calls of one process.
	History *History `json:"history,omitempty"`
	Base    uint64   `json:"base_seed"`
	From    int      `json:"from"`
	Stride  int      `json:"stride"`
}

type History struct {
	Base   uint64 `json:"base"`
	From   int    `json:"from"`
	Stride int    `json:"stride"`
	Index  int    `json:"index"`
}

func envInt(k string, d int) int {
	if v := os.Getenv(k); v != "" {
		if n, err := strconv.Atoi(v); err == nil {
			return n
		}
	}
	return d
}

func propSalt(id string) uint64 {
	h := fnv.New64a()
	h.Write([]byte(id))
	return h.Sum64()
}

func SeedFor(base uint64, prop string, index int) uint64 {
	return core.Mix(core.Mix(base, propSalt(prop)), uint64(index))
}

func TestWorker(t *testing.T) {
	id := os.Getenv("VERIF_PROP")
	if id == "" {
		t.Skip("VERIF_PROP not set")
	}
	runtime.GOMAXPROCS(1)
	InstallHooks()
	prop := Props[id]
	if prop == nil {
		t.Fatalf("unknown property %q", id)
	}
	tier := os.Getenv("VERIF_TIER")
	if tier == "" {
		tier = "quick"
	}
	out := &workerOut{Prop: id, Probes: map[string]int{}, Status: map[string]int{}}
	start := time.Now()
	defer func() {
		out.WallS = time.Since(start).Seconds()
		if path := os.Getenv("VERIF_OUT"); path != "" {
			b, _ := json.Marshal(out)
			_ = os.WriteFile(path, b, 0o644)
		}
	}()
	if rp := os.Getenv("VERIF_REPLAY"); rp != "" {
		replayFile(t, prop, rp, out)
		return
	}
	base, _ := strconv.ParseUint(os.Getenv("VERIF_SEED"), 10, 64)
	from, count, stride := envInt("VERIF_FROM", 0), envInt("VERIF_COUNT", 100), envInt("VERIF_STRIDE", 1)
	budget := time.Duration(envInt("VERIF_BUDGET_S", 3600)) * time.Second
	wantHashes := os.Getenv("VERIF_HASHES") != ""
	if wantHashes {
		out.Hashes = map[string]string{}
	}
	sigs := map[string]bool{}
	classesSeen := map[string]bool{}
	for k := 0; k < count; k++ {
		if time.Since(start) > budget {
			break
		}
		idx := from + k*stride
		seed := SeedFor(base, id, idx)
		fmt.Fprintf(os.Stderr, "RUN prop=%s index=%d seed=%d\n", id, idx, seed)
		tape := core.NewTape(seed)
		tape.NoTrace = true
		t0 := time.Now()
		res := RunOne(t, prop, tape, RunOpts{Tier: tier, Real: os.Getenv("VERIF_REAL") != ""})
		if d := time.Since(t0); d > 400*time.Millisecond {
			out.Probes["slow_runs_over_400ms"]++
			fmt.Fprintf(os.Stderr, "SLOW index=%d ms=%d steps=%d status=%s\n", idx, d.Milliseconds(), res.Steps, res.Status)
		}
		res.Seed = seed
		out.Runs++
		out.Steps += int64(res.Steps)
		out.FakeNS += res.FakeNS
		out.Status[res.Status]++
		for k, v := range res.Probes {
			out.Probes[k] += v
		}
		if res.Nontrivial {
			out.Nontrivial++
			sigs[res.Sig] = true
		}
		if wantHashes {
			out.Hashes[strconv.Itoa(idx)] = res.Hash + "/" + resultDigest(res)
		}
		if res.Inconclusive != "" {
			out.Inconclusive = append(out.Inconclusive, fmt.Sprintf("index=%d seed=%d: %s", idx, seed, res.Inconclusive))
		}
		if len(res.Violations) > 0 {
			v := res.Violations[0]
			out.Probes["runs_with_violation"]++
			if classesSeen[v.Class] {
				continue // one replay per class per worker is enough
			}
			classesSeen[v.Class] = true
			if os.Getenv("VERIF_REAL") != "" {
				// free-running world: not replayable, report as is
				out.Violations = append(out.Violations, &ViolationRec{Prop: id, Seed: seed, Index: idx, Class: v.Class, Msg: v.Msg, Tier: tier})
				continue
			}
			rec := minimise(t, prop, tier, tape.Values(), v)
			rec.Seed, rec.Index = seed, idx
			rec.Base, rec.From, rec.Stride = base, from, stride
			out.Violations = append(out.Violations, rec)
		}
		if len(out.Samples) < 2 && res.Nontrivial && k%7 == 3 {
			tp := core.ReplayTape(tape.Values())
			sres := RunOne(t, prop, tp, RunOpts{Tier: tier, KeepTrace: true})
			sres.Seed = seed
			if len(sres.Trace) > 40 {
				sres.Trace = append(sres.Trace[:40], fmt.Sprintf("... %d more steps", len(sres.Trace)-40))
			}
			out.Samples = append(out.Samples, sres)
		}
	}
	for s := range sigs {
		out.Sigs = append(out.Sigs, s)
	}
}

func resultDigest(r *RunResult) string {
	h := fnv.New64a()
	fmt.Fprintf(h, "%s|%d|%d|%d|", r.Status, r.Steps, r.FakeNS, len(r.Violations))
	for _, v := range r.Violations {
		h.Write([]byte(v.Class))
	}
	return fmt.Sprintf("%016x", h.Sum64())
}

func replayFile(t *testing.T, prop *Prop, path string, out *workerOut) {
	b, err := os.ReadFile(path)
	if err != nil {
		t.Fatalf("replay: %v", err)
	}
	var rec ViolationRec
	if err := json.Unmarshal(b, &rec); err != nil {
		t.Fatalf("replay: %v", err)
	}
	tier := rec.Tier
	if tier == "" {
		tier = "quick"
	}
	if h := rec.History; h != nil {
		// run the same sequence of runs this worker process had executed
		var res *RunResult
		for k := h.From; k <= h.Index; k += max(1, h.Stride) {
			tp := core.NewTape(SeedFor(h.Base, prop.ID, k))
			tp.NoTrace = true
			res = RunOne(t, prop, tp, RunOpts{Tier: tier, KeepTrace: k == h.Index})
			out.Runs++
		}
		if res != nil {
			out.Status[res.Status]++
			for _, v := range res.Violations {
				out.Violations = append(out.Violations, &ViolationRec{Prop: prop.ID, Class: v.Class, Msg: v.Msg, Hash: res.Hash})
			}
			out.Samples = append(out.Samples, res)
		}
		return
	}
	tape := core.ReplayTape(rec.Tape)
	if rec.Tape == nil {
		// crash replays carry only the seed: the run is regenerated from it
		tape = core.NewTape(rec.Seed)
	}
	res := RunOne(t, prop, tape, RunOpts{Tier: tier, KeepTrace: true})
	out.Runs = 1
	out.Status[res.Status]++
	if res.Inconclusive != "" {
		out.Inconclusive = append(out.Inconclusive, res.Inconclusive)
	}
	for _, v := range res.Violations {
		out.Violations = append(out.Violations, &ViolationRec{Prop: prop.ID, Class: v.Class, Msg: v.Msg, Hash: res.Hash, Tape: rec.Tape})
	}
	out.Samples = append(out.Samples, res)
}
